import XM
namespace AlgX
variable (M : Mat)

def rowAt (i : Nat) : List Nat := M.rows.getD i []

structure ResCover (cov : List Nat) (S : List Nat) : Prop where
  nodup  : S.Nodup
  valid  : ∀ i ∈ S, i < M.rows.length
  act    : ∀ i ∈ S, active cov (rowAt M i) = true
  disj   : ∀ i ∈ S, ∀ j ∈ S, i ≠ j → ∀ c, c ∈ rowAt M i → c ∉ rowAt M j
  covers : ∀ c ∈ upc M cov, ∃ i ∈ S, c ∈ rowAt M i
  hits   : ∀ i ∈ S, ∃ c ∈ upc M cov, c ∈ rowAt M i

theorem active_iff {cov r : List Nat} : active cov r = true ↔ ∀ c ∈ r, c ∉ cov := by
  simp [active]

theorem mem_cand {cov : List Nat} {c : Nat} {p : List Nat × Nat} :
    p ∈ cand M cov c ↔ p.2 < M.rows.length ∧ p.1 = rowAt M p.2 ∧ active cov p.1 = true ∧ c ∈ p.1 := by
  unfold cand rowAt
  rw [List.mem_filter, List.mem_zipIdx_iff_getElem?]
  constructor
  · rintro ⟨h1, h2⟩
    have hlt : p.2 < M.rows.length := by
      rcases Nat.lt_or_ge p.2 M.rows.length with h | h
      · exact h
      · rw [List.getElem?_eq_none h] at h1; cases h1
    refine ⟨hlt, ?_, ?_, ?_⟩
    · simp [List.getD, h1]
    · simp only [Bool.and_eq_true] at h2; exact h2.1
    · simp only [Bool.and_eq_true, List.contains_iff_mem] at h2; exact h2.2
  · rintro ⟨hlt, heq, ha, hc⟩
    refine ⟨?_, ?_⟩
    · rw [heq]; simp [List.getD, List.getElem?_eq_getElem hlt]
    · simp [ha, hc]

theorem mem_upc {cov : List Nat} {c : Nat} :
    c ∈ upc M cov ↔ c < M.ncols ∧ M.prim c = true ∧ c ∉ cov := by
  simp [upc, and_assoc]

theorem argminFirst_mem (f : Nat → Nat) (cs : List Nat) (b : Nat) :
    argminFirst f cs b = b ∨ argminFirst f cs b ∈ cs := by
  induction cs generalizing b with
  | nil => left; rfl
  | cons c cs ih =>
    simp only [argminFirst]
    rcases ih (if f c < f b then c else b) with h | h
    · rw [h]; split
      · right; simp
      · left; rfl
    · right; exact List.mem_cons_of_mem _ h

theorem choose_mem {cov l : List Nat} {c : Nat} (h : choose M cov l = some c) : c ∈ l := by
  cases l with
  | nil => simp [choose] at h
  | cons a as =>
    simp only [choose, Option.some.injEq] at h
    rcases argminFirst_mem (size M cov) as a with h' | h'
    · rw [← h, h']; simp
    · rw [← h]; exact List.mem_cons_of_mem _ h'

theorem choose_none {cov l : List Nat} (h : choose M cov l = none) : l = [] := by
  cases l with
  | nil => rfl
  | cons a as => simp [choose] at h

end AlgX
