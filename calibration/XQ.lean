import XP
namespace AlgX
variable (M : Mat)

theorem active_append {cov r x : List Nat} :
    active (cov ++ r) x = true ↔ active cov x = true ∧ ∀ c ∈ x, c ∉ r := by
  simp only [active_iff, List.mem_append, not_or]
  constructor
  · intro h; exact ⟨fun c hc => (h c hc).1, fun c hc => (h c hc).2⟩
  · rintro ⟨h1, h2⟩ c hc; exact ⟨h1 c hc, h2 c hc⟩

theorem mem_upc_append {cov r : List Nat} {c : Nat} :
    c ∈ upc M (cov ++ r) ↔ c ∈ upc M cov ∧ c ∉ r := by
  simp only [mem_upc, List.mem_append, not_or, and_assoc]

theorem search_sound (fuel : Nat) (cov : List Nat) :
    ∀ s ∈ search M fuel cov, ResCover M cov s := by
  induction fuel generalizing cov with
  | zero => intro s hs; simp [search] at hs
  | succ fuel ih =>
    intro s hs
    unfold search at hs
    split at hs
    · -- no uncovered primary column
      rename_i hnone
      have hup := choose_none M hnone
      simp only [List.mem_singleton] at hs
      subst hs
      exact ⟨List.nodup_nil, by simp, by simp, by simp, by simp [hup], by simp⟩
    · rename_i c hsome
      have hc := choose_mem M hsome
      split at hs
      · simp at hs
      · rw [List.mem_flatMap] at hs
        obtain ⟨p, hp, hs⟩ := hs
        rw [List.mem_map] at hs
        obtain ⟨s', hs', rfl⟩ := hs
        have R := ih (cov ++ p.1) s' hs'
        obtain ⟨hlt, heq, hact, hcp⟩ := (mem_cand M).1 hp
        -- rows of s' avoid p.1
        have avoid : ∀ j ∈ s', ∀ x ∈ rowAt M j, x ∉ p.1 := fun j hj =>
          ((active_append).1 (R.act j hj)).2
        have hnot : p.2 ∉ s' := by
          intro hmem
          have := avoid p.2 hmem c (by rw [← heq]; exact hcp)
          exact this hcp
        refine ⟨List.nodup_cons.2 ⟨hnot, R.nodup⟩, ?_, ?_, ?_, ?_, ?_⟩
        · intro i hi
          rcases List.mem_cons.1 hi with rfl | hi
          · exact hlt
          · exact R.valid i hi
        · intro i hi
          rcases List.mem_cons.1 hi with rfl | hi
          · rw [← heq]; exact hact
          · exact ((active_append).1 (R.act i hi)).1
        · intro i hi j hj hij x hx
          rcases List.mem_cons.1 hi with rfl | hi <;> rcases List.mem_cons.1 hj with rfl | hj
          · exact absurd rfl hij
          · intro hxj; exact avoid j hj x hxj (by rw [heq]; exact hx)
          · intro hxj; exact avoid i hi x hx (by rw [heq]; exact hxj)
          · exact R.disj i hi j hj hij x hx
        · intro x hx
          by_cases hxp : x ∈ p.1
          · exact ⟨p.2, List.mem_cons_self, by rw [← heq]; exact hxp⟩
          · obtain ⟨i, hi, hxi⟩ := R.covers x ((mem_upc_append M).2 ⟨hx, hxp⟩)
            exact ⟨i, List.mem_cons_of_mem _ hi, hxi⟩
        · intro i hi
          rcases List.mem_cons.1 hi with rfl | hi
          · exact ⟨c, hc, by rw [← heq]; exact hcp⟩
          · obtain ⟨x, hx, hxi⟩ := R.hits i hi
            exact ⟨x, ((mem_upc_append M).1 hx).1, hxi⟩

end AlgX
