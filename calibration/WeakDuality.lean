import Mathlib.Algebra.BigOperators.Group.Finset.Basic
import Mathlib.Algebra.Order.BigOperators.Group.Finset
import Mathlib.Algebra.Order.Field.Rat
import Mathlib.Tactic.Linarith
import Mathlib.Tactic.Ring
import Mathlib.Algebra.BigOperators.Ring.Finset

open Finset

variable {m n : ℕ}

/-- primal: min c·x s.t. A x ≤ b, x ≥ 0.  dual multipliers y ≥ 0 with c + Aᵀ y ≥ 0. -/
theorem weak_duality (A : Fin m → Fin n → ℚ) (b : Fin m → ℚ) (c : Fin n → ℚ)
    (x : Fin n → ℚ) (y : Fin m → ℚ)
    (hx : ∀ j, 0 ≤ x j) (hAx : ∀ i, ∑ j, A i j * x j ≤ b i)
    (hy : ∀ i, 0 ≤ y i) (hd : ∀ j, 0 ≤ c j + ∑ i, y i * A i j) :
    -(∑ i, y i * b i) ≤ ∑ j, c j * x j := by
  have h1 : ∑ i, y i * (∑ j, A i j * x j) ≤ ∑ i, y i * b i :=
    Finset.sum_le_sum fun i _ => mul_le_mul_of_nonneg_left (hAx i) (hy i)
  have h2 : ∑ i, y i * (∑ j, A i j * x j) = ∑ j, (∑ i, y i * A i j) * x j := by
    simp only [Finset.mul_sum, Finset.sum_mul]
    rw [Finset.sum_comm]
    refine Finset.sum_congr rfl fun j _ => Finset.sum_congr rfl fun i _ => by ring
  have h3 : 0 ≤ ∑ j, (c j + ∑ i, y i * A i j) * x j :=
    Finset.sum_nonneg fun j _ => mul_nonneg (hd j) (hx j)
  have h4 : ∑ j, (c j + ∑ i, y i * A i j) * x j
      = ∑ j, c j * x j + ∑ j, (∑ i, y i * A i j) * x j := by
    rw [← Finset.sum_add_distrib]; refine Finset.sum_congr rfl fun j _ => by ring
  linarith
#print axioms weak_duality
