def g (i : Nat) : Nat := i &&& (i+1)
def h (i : Nat) : Nat := i ||| (i+1)

theorem mod2_and (a b : Nat) : (a &&& b) % 2 = (a % 2) &&& (b % 2) := by
  have := Nat.and_mod_two_pow (a := a) (b := b) (n := 1)
  simpa using this
theorem mod2_or (a b : Nat) : (a ||| b) % 2 = (a % 2) ||| (b % 2) := by
  have := Nat.or_mod_two_pow (a := a) (b := b) (n := 1)
  simpa using this

theorem g_odd (m : Nat) : g (2*m+1) = 2 * g m := by
  unfold g
  have hd : ((2*m+1) &&& (2*m+1+1)) / 2 = m &&& (m+1) := by
    rw [Nat.and_div_two]; congr 1 <;> omega
  have hm : ((2*m+1) &&& (2*m+1+1)) % 2 = 0 := by
    rw [mod2_and]; have : (2*m+1+1) % 2 = 0 := by omega
    rw [this]; simp
  omega
theorem g_even (m : Nat) : g (2*m) = 2*m := by
  unfold g
  have hd : ((2*m) &&& (2*m+1)) / 2 = m &&& m := by
    rw [Nat.and_div_two]; congr 1 <;> omega
  have hm : ((2*m) &&& (2*m+1)) % 2 = 0 := by
    rw [mod2_and]; have : (2*m) % 2 = 0 := by omega
    rw [this]; simp
  simp at hd; omega
theorem h_even (m : Nat) : h (2*m) = 2*m+1 := by
  unfold h
  have hd : ((2*m) ||| (2*m+1)) / 2 = m ||| m := by
    rw [Nat.or_div_two]; congr 1 <;> omega
  have hm : ((2*m) ||| (2*m+1)) % 2 = 1 := by
    rw [mod2_or]; have h1 : (2*m) % 2 = 0 := by omega
    have h2 : (2*m+1) % 2 = 1 := by omega
    rw [h1,h2]; decide
  simp at hd; omega
theorem h_odd (m : Nat) : h (2*m+1) = 2 * h m + 1 := by
  unfold h
  have hd : ((2*m+1) ||| (2*m+1+1)) / 2 = m ||| (m+1) := by
    rw [Nat.or_div_two]; congr 1 <;> omega
  have hm : ((2*m+1) ||| (2*m+1+1)) % 2 = 1 := by
    rw [mod2_or]; have h1 : (2*m+1) % 2 = 1 := by omega
    have h2 : (2*m+1+1) % 2 = 0 := by omega
    rw [h1,h2]; decide
  omega
#print axioms h_odd
