import DpllModel
namespace Dpll

theorem litTrue_neg {σ : Nat → Bool} {l : Int} (h : l ≠ 0) : litTrue σ (-l) = !litTrue σ l := by
  unfold litTrue
  have : (-l).natAbs = l.natAbs := Int.natAbs_neg l
  rw [this]
  by_cases hp : 0 < l
  · simp [hp]; omega
  · simp [hp]; omega

/-- update the variable of `l` so that `l` becomes true -/
def setLit (σ : Nat → Bool) (l : Int) : Nat → Bool :=
  fun v => if v = l.natAbs then decide (0 < l) else σ v

theorem litTrue_setLit_self {σ : Nat → Bool} {l : Int} : litTrue (setLit σ l) l = true := by
  unfold litTrue setLit
  by_cases hp : 0 < l <;> simp [hp]

theorem litTrue_setLit_other {σ : Nat → Bool} {l m : Int} (h1 : m ≠ l) (h2 : m ≠ -l) :
    litTrue (setLit σ l) m = litTrue σ m := by
  unfold litTrue setLit
  have : m.natAbs ≠ l.natAbs := by omega
  simp [this]

theorem mem_assign {l : Int} {f : Cnf} {d : Clause} :
    d ∈ assign l f ↔ ∃ c ∈ f, l ∉ c ∧ d = c.filter (· != -l) := by
  unfold assign
  simp only [List.mem_map, List.mem_filter]
  constructor
  · rintro ⟨c, ⟨hc, hl⟩, rfl⟩; exact ⟨c, hc, by simpa using hl, rfl⟩
  · rintro ⟨c, hc, hl, rfl⟩; exact ⟨c, ⟨hc, by simpa using hl⟩, rfl⟩

/-- under an assignment making `l` true, `f` and `assign l f` agree -/
theorem cnfTrue_assign {σ : Nat → Bool} {l : Int} {f : Cnf} (hl0 : l ≠ 0)
    (hl : litTrue σ l = true) : cnfTrue σ (assign l f) = cnfTrue σ f := by
  have hneg : litTrue σ (-l) = false := by rw [litTrue_neg hl0, hl]; rfl
  apply Bool.eq_iff_iff.2
  simp only [cnfTrue, List.all_eq_true]
  constructor
  · intro h c hc
    by_cases hlc : l ∈ c
    · simp only [clauseTrue, List.any_eq_true]; exact ⟨l, hlc, hl⟩
    · have := h _ ((mem_assign).2 ⟨c, hc, hlc, rfl⟩)
      simp only [clauseTrue, List.any_eq_true, List.mem_filter] at this ⊢
      obtain ⟨m, ⟨hm, _⟩, hmt⟩ := this
      exact ⟨m, hm, hmt⟩
  · intro h d hd
    obtain ⟨c, hc, hlc, rfl⟩ := (mem_assign).1 hd
    have := h c hc
    simp only [clauseTrue, List.any_eq_true, List.mem_filter] at this ⊢
    obtain ⟨m, hm, hmt⟩ := this
    refine ⟨m, ⟨hm, ?_⟩, hmt⟩
    have : m ≠ -l := by rintro rfl; rw [hneg] at hmt; cases hmt
    simpa using this

/-- `assign l f` does not mention the variable of `l` -/
theorem assign_free {l : Int} {f : Cnf} : ∀ d ∈ assign l f, ∀ m ∈ d, m ≠ l ∧ m ≠ -l := by
  intro d hd m hm
  obtain ⟨c, _, hlc, rfl⟩ := (mem_assign).1 hd
  simp only [List.mem_filter] at hm
  refine ⟨?_, by simpa using hm.2⟩
  rintro rfl; exact hlc hm.1

theorem cnfTrue_setLit_assign {σ : Nat → Bool} {l : Int} {f : Cnf} :
    cnfTrue (setLit σ l) (assign l f) = cnfTrue σ (assign l f) := by
  have key : ∀ d ∈ assign l f, clauseTrue (setLit σ l) d = clauseTrue σ d := by
    intro d hd
    unfold clauseTrue
    apply Bool.eq_iff_iff.2
    simp only [List.any_eq_true]
    constructor
    · rintro ⟨m, hm, ht⟩
      have := assign_free d hd m hm
      exact ⟨m, hm, by rw [← litTrue_setLit_other this.1 this.2]; exact ht⟩
    · rintro ⟨m, hm, ht⟩
      have := assign_free d hd m hm
      exact ⟨m, hm, by rw [litTrue_setLit_other this.1 this.2]; exact ht⟩
  unfold cnfTrue
  apply Bool.eq_iff_iff.2
  simp only [List.all_eq_true]
  constructor
  · intro h d hd; rw [← key d hd]; exact h d hd
  · intro h d hd; rw [key d hd]; exact h d hd

theorem WF_assign {l : Int} {f : Cnf} (h : WF f) : WF (assign l f) := by
  intro d hd m hm
  obtain ⟨c, hc, _, rfl⟩ := (mem_assign).1 hd
  exact h c hc m (List.mem_filter.1 hm).1

end Dpll
