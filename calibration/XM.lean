/-! Calibration sketch: functional Algorithm X, model only (no Mathlib). -/
namespace AlgX

structure Mat where
  rows  : List (List Nat)      -- row = list of column ids holding a 1
  ncols : Nat
  prim  : Nat → Bool

variable (M : Mat)

def active (cov : List Nat) (r : List Nat) : Bool := r.all fun c => !cov.contains c

def cand (cov : List Nat) (c : Nat) : List (List Nat × Nat) :=
  (M.rows.zipIdx).filter fun p => active cov p.1 && p.1.contains c

def size (cov : List Nat) (c : Nat) : Nat := (cand M cov c).length

def upc (cov : List Nat) : List Nat :=
  (List.range M.ncols).filter fun c => M.prim c && !cov.contains c

/-- first element with the least key -/
def argminFirst (f : Nat → Nat) : List Nat → Nat → Nat
  | [], best => best
  | c :: cs, best => argminFirst f cs (if f c < f best then c else best)

def choose (cov : List Nat) : List Nat → Option Nat
  | [] => none
  | c :: cs => some (argminFirst (size M cov) cs c)

def search : Nat → List Nat → List (List Nat)
  | 0, _ => []
  | fuel+1, cov =>
    match choose M cov (upc M cov) with
    | none => [[]]
    | some c =>
      if size M cov c = 0 then []
      else (cand M cov c).flatMap fun p => (search fuel (cov ++ p.1)).map (p.2 :: ·)

def solve : List (List Nat) := search M (M.ncols + 1) []

end AlgX
