import XQ
namespace AlgX
variable (M : Mat)

theorem upc_append_length_lt {cov r : List Nat} {c : Nat} (hc : c ∈ upc M cov) (hr : c ∈ r) :
    (upc M (cov ++ r)).length < (upc M cov).length := by
  have hsub : upc M (cov ++ r) = (upc M cov).filter (fun x => !r.contains x) := by
    unfold upc
    rw [List.filter_filter]
    congr 1
    funext x
    cases M.prim x <;> simp [Bool.and_comm]
  rw [hsub]
  apply List.length_filter_lt_length_iff_exists.2
  exact ⟨c, hc, by simp [hr]⟩

theorem search_complete (fuel : Nat) (cov S : List Nat) (hS : ResCover M cov S)
    (hf : (upc M cov).length < fuel) :
    ∃ S', S'.Perm S ∧ S' ∈ search M fuel cov := by
  induction fuel generalizing cov S with
  | zero => omega
  | succ fuel ih =>
    unfold search
    split
    · rename_i hnone
      have hup := choose_none M hnone
      have : S = [] := by
        cases S with
        | nil => rfl
        | cons i t =>
          obtain ⟨x, hx, _⟩ := hS.hits i List.mem_cons_self
          rw [hup] at hx; cases hx
      subst this
      exact ⟨[], List.Perm.refl _, by simp⟩
    · rename_i c hsome
      have hc := choose_mem M hsome
      obtain ⟨i, hi, hci⟩ := hS.covers c hc
      have hp : (rowAt M i, i) ∈ cand M cov c :=
        (mem_cand M).2 ⟨hS.valid i hi, rfl, hS.act i hi, hci⟩
      have hsz : size M cov c ≠ 0 := by
        unfold size; intro h0
        have := List.eq_nil_of_length_eq_zero h0
        rw [this] at hp; cases hp
      rw [if_neg hsz]
      -- residual cover
      have hS₁ : ResCover M (cov ++ rowAt M i) (S.erase i) := by
        have hmem : ∀ j, j ∈ S.erase i → j ∈ S ∧ j ≠ i := fun j hj =>
          ⟨List.mem_of_mem_erase hj, fun h => by
            subst h; exact (List.Nodup.not_mem_erase hS.nodup) hj⟩
        refine ⟨hS.nodup.erase i, ?_, ?_, ?_, ?_, ?_⟩
        · intro j hj; exact hS.valid j (hmem j hj).1
        · intro j hj
          refine (active_append).2 ⟨hS.act j (hmem j hj).1, ?_⟩
          intro x hx hxi
          exact hS.disj j (hmem j hj).1 i hi (hmem j hj).2 x hx hxi
        · intro a ha b hb hab x hx
          exact hS.disj a (hmem a ha).1 b (hmem b hb).1 hab x hx
        · intro x hx
          obtain ⟨hx1, hx2⟩ := (mem_upc_append M).1 hx
          obtain ⟨j, hj, hxj⟩ := hS.covers x hx1
          have hji : j ≠ i := by rintro rfl; exact hx2 hxj
          exact ⟨j, (List.mem_erase_of_ne hji).2 hj, hxj⟩
        · intro j hj
          obtain ⟨x, hx, hxj⟩ := hS.hits j (hmem j hj).1
          refine ⟨x, (mem_upc_append M).2 ⟨hx, ?_⟩, hxj⟩
          intro hxi
          exact hS.disj j (hmem j hj).1 i hi (hmem j hj).2 x hxj hxi
      have hlen := upc_append_length_lt M hc hci
      obtain ⟨S₁', hperm, hmem⟩ := ih (cov ++ rowAt M i) (S.erase i) hS₁ (by omega)
      refine ⟨i :: S₁', ?_, ?_⟩
      · exact (List.Perm.cons i hperm).trans (List.perm_cons_erase hi).symm
      · rw [List.mem_flatMap]
        exact ⟨(rowAt M i, i), hp, List.mem_map.2 ⟨S₁', hmem, rfl⟩⟩

theorem cand_pairwise (cov : List Nat) (c : Nat) :
    (cand M cov c).Pairwise (fun p q => p.2 ≠ q.2) := by
  unfold cand
  apply List.Pairwise.filter
  have : (M.rows.zipIdx.map Prod.snd).Nodup := by
    rw [List.zipIdx_map_snd]; exact List.nodup_range' ..
  exact (List.pairwise_map.1 this)

theorem search_nodup (fuel : Nat) (cov : List Nat) :
    (search M fuel cov).Pairwise (fun a b => ¬ a.Perm b) := by
  induction fuel generalizing cov with
  | zero => simp [search]
  | succ fuel ih =>
    unfold search
    split
    · simp
    · rename_i c hsome
      split
      · simp
      · rw [List.pairwise_flatMap]
        refine ⟨?_, ?_⟩
        · intro p _
          rw [List.pairwise_map]
          exact (ih (cov ++ p.1)).imp (fun h hp => h ((List.perm_cons _).1 hp))
        · refine (cand_pairwise M cov c).imp_of_mem ?_
          intro p q hp hq hne x hx y hy hperm
          obtain ⟨s', hs', rfl⟩ := List.mem_map.1 hx
          obtain ⟨s'', hs'', rfl⟩ := List.mem_map.1 hy
          obtain ⟨_, heqp, _, hcp⟩ := (mem_cand M).1 hp
          obtain ⟨_, heqq, _, hcq⟩ := (mem_cand M).1 hq
          have hq_in : q.2 ∈ p.2 :: s' := hperm.symm.subset List.mem_cons_self
          rcases List.mem_cons.1 hq_in with h | h
          · exact hne h.symm
          · have R := search_sound M fuel (cov ++ p.1) s' hs'
            have := ((active_append).1 (R.act q.2 h)).2 c (by rw [← heqq]; exact hcq)
            exact this hcp

/-- Top level: the emitted list is, up to permutation inside each selection,
exactly the set of exact covers by rows that hit a primary column, without duplicates. -/
theorem solve_spec :
    (∀ s ∈ solve M, ResCover M [] s) ∧
    (∀ S, ResCover M [] S → ∃ S', S'.Perm S ∧ S' ∈ solve M) ∧
    (solve M).Pairwise (fun a b => ¬ a.Perm b) := by
  refine ⟨search_sound M _ _, fun S hS => search_complete M _ _ S hS ?_, search_nodup M _ _⟩
  have : (upc M []).length ≤ M.ncols := by
    unfold upc; exact Nat.le_trans (List.length_filter_le _ _) (by simp)
  omega

end AlgX
#print axioms AlgX.solve_spec
