import FenwickIndex
-- (A) j < h j   (B) g (h j) ≤ g j   (C) j < k < h j → j < g k   ; plus g j ≤ j

theorem g_le : ∀ j, g j ≤ j := fun j => Nat.and_le_left

theorem parity (j : Nat) : (∃ m, j = 2*m) ∨ (∃ m, j = 2*m+1) := by
  rcases Nat.mod_two_eq_zero_or_one j with h | h
  · left; exact ⟨j/2, by omega⟩
  · right; exact ⟨j/2, by omega⟩

theorem lt_h : ∀ j, j < h j := by
  intro j
  induction j using Nat.strongRecOn with
  | _ j ih =>
    rcases parity j with ⟨m, rfl⟩ | ⟨m, rfl⟩
    · rw [h_even]; omega
    · rw [h_odd]; have := ih m (by omega); omega

theorem g_h_le : ∀ j, g (h j) ≤ g j := by
  intro j
  induction j using Nat.strongRecOn with
  | _ j ih =>
    rcases parity j with ⟨m, rfl⟩ | ⟨m, rfl⟩
    · rw [h_even, g_odd, g_even]; have := g_le m; omega
    · rw [h_odd, g_odd, g_odd]; have := ih m (by omega); omega

theorem gap : ∀ j k, j < k → k < h j → j < g k := by
  intro j
  induction j using Nat.strongRecOn with
  | _ j ih =>
    intro k h1 h2
    rcases parity j with ⟨m, rfl⟩ | ⟨m, rfl⟩
    · rw [h_even] at h2; omega
    · rw [h_odd] at h2
      rcases parity k with ⟨q, rfl⟩ | ⟨q, rfl⟩
      · rw [g_even]; omega
      · rw [g_odd]
        have := ih m (by omega) q (by omega) (by omega)
        omega

/-- j covers i iff g j ≤ i ≤ j.  The update walk from i visits exactly the covering indices. -/
def covers (i j : Nat) : Prop := g j ≤ i ∧ i ≤ j

theorem covers_self (i : Nat) : covers i i := ⟨g_le i, Nat.le_refl i⟩
theorem covers_h {i j : Nat} (hc : covers i j) : covers i (h j) :=
  ⟨Nat.le_trans (g_h_le j) hc.1, Nat.le_trans hc.2 (Nat.le_of_lt (lt_h j))⟩
theorem not_covers_between {i j k : Nat} (hc : covers i j) (h1 : j < k) (h2 : k < h j) : ¬ covers i k := by
  intro hk; have := gap j k h1 h2; have := hk.1; have := hc.2; omega
#print axioms not_covers_between
