/-! Calibration sketch: reference DPLL, sound and complete (core Lean only). -/
namespace Dpll

abbrev Clause := List Int
abbrev Cnf := List Clause

def litTrue (σ : Nat → Bool) (l : Int) : Bool := if 0 < l then σ l.natAbs else !σ l.natAbs
def clauseTrue (σ : Nat → Bool) (c : Clause) : Bool := c.any (litTrue σ)
def cnfTrue (σ : Nat → Bool) (f : Cnf) : Bool := f.all (clauseTrue σ)

/-- make literal `l` true: drop satisfied clauses, delete `-l` elsewhere -/
def assign (l : Int) (f : Cnf) : Cnf :=
  (f.filter fun c => !c.contains l).map fun c => c.filter (· != -l)

def size (f : Cnf) : Nat := (f.map List.length).sum

def dpll : Nat → Cnf → Bool
  | 0, _ => false
  | fuel+1, f =>
    match f with
    | [] => true
    | [] :: _ => false
    | (l :: _) :: _ => dpll fuel (assign l f) || dpll fuel (assign (-l) f)

def solve (f : Cnf) : Bool := dpll (size f + f.length + 1) f

def WF (f : Cnf) : Prop := ∀ c ∈ f, ∀ l ∈ c, l ≠ 0

end Dpll
