import DpllLemmas
namespace Dpll

theorem size_cons (c : Clause) (f : Cnf) : size (c :: f) = c.length + size f := by
  simp [size]

theorem size_filter_le (p : Clause → Bool) (f : Cnf) : size (f.filter p) ≤ size f := by
  induction f with
  | nil => simp
  | cons c f ih =>
    simp only [List.filter_cons]; split
    · simp only [size_cons]; omega
    · simp only [size_cons]; omega

theorem size_map_filter_le (q : Int → Bool) (f : Cnf) :
    size (f.map fun c => c.filter q) ≤ size f := by
  induction f with
  | nil => simp
  | cons c f ih =>
    simp only [List.map_cons, size_cons]
    have := List.length_filter_le q c; omega

/-- measure used as fuel: literals + clauses -/
def meas (f : Cnf) : Nat := size f + f.length

theorem length_assign_le (l : Int) (f : Cnf) : (assign l f).length ≤ f.length := by
  unfold assign; simp only [List.length_map]; exact List.length_filter_le _ _

theorem size_assign_le (l : Int) (f : Cnf) : size (assign l f) ≤ size f := by
  unfold assign
  exact Nat.le_trans (size_map_filter_le _ _) (size_filter_le _ _)

/-- branching on the head literal of the head clause: the clause disappears -/
theorem meas_assign_pos {l : Int} {c : Clause} {f : Cnf} :
    meas (assign l ((l :: c) :: f)) < meas ((l :: c) :: f) := by
  have h1 : assign l ((l :: c) :: f) = assign l f := by
    unfold assign; simp
  rw [h1]
  have := size_assign_le l f; have := length_assign_le l f
  simp only [meas, size_cons, List.length_cons]; omega

/-- branching on its negation: the head literal disappears from the head clause -/
theorem meas_assign_neg {l : Int} {c : Clause} {f : Cnf} (hl : l ≠ 0) :
    meas (assign (-l) ((l :: c) :: f)) < meas ((l :: c) :: f) := by
  have hne : (-l) ≠ l := by omega
  by_cases hmem : (-l) ∈ c
  · have h1 : assign (-l) ((l :: c) :: f) = assign (-l) f := by
      unfold assign; simp [hmem]
    rw [h1]
    have := size_assign_le (-l) f; have := length_assign_le (-l) f
    simp only [meas, size_cons, List.length_cons]; omega
  · have h1 : assign (-l) ((l :: c) :: f) = (c.filter (· != l)) :: assign (-l) f := by
      unfold assign
      have hnot : (-l) ∉ (l :: c) := by
        intro h; rcases List.mem_cons.1 h with h | h
        · exact hne h
        · exact hmem h
      rw [List.filter_cons_of_pos (by simpa using hnot)]
      simp
    rw [h1]
    have := size_assign_le (-l) f; have := length_assign_le (-l) f
    have := List.length_filter_le (· != l) c
    simp only [meas, size_cons, List.length_cons]; omega

theorem dpll_correct : ∀ (fuel : Nat) (f : Cnf), WF f → meas f < fuel →
    (dpll fuel f = true ↔ ∃ σ, cnfTrue σ f = true) := by
  intro fuel
  induction fuel with
  | zero => intro f _ h; omega
  | succ fuel ih =>
    intro f hwf hm
    match f, hwf, hm with
    | [], _, _ => simp [dpll, cnfTrue]
    | [] :: f, _, _ => simp [dpll, cnfTrue, clauseTrue]
    | (l :: c) :: f, hwf, hm =>
      have hl0 : l ≠ 0 := hwf (l :: c) List.mem_cons_self l List.mem_cons_self
      have hnl0 : -l ≠ 0 := by omega
      have m1 := meas_assign_pos (l := l) (c := c) (f := f)
      have m2 := meas_assign_neg (c := c) (f := f) hl0
      have i1 := ih (assign l ((l :: c) :: f)) (WF_assign hwf) (by omega)
      have i2 := ih (assign (-l) ((l :: c) :: f)) (WF_assign hwf) (by omega)
      simp only [dpll, Bool.or_eq_true, i1, i2]
      constructor
      · rintro (⟨σ, hσ⟩ | ⟨σ, hσ⟩)
        · refine ⟨setLit σ l, ?_⟩
          rw [← cnfTrue_assign hl0 litTrue_setLit_self, cnfTrue_setLit_assign]; exact hσ
        · refine ⟨setLit σ (-l), ?_⟩
          rw [← cnfTrue_assign hnl0 litTrue_setLit_self, cnfTrue_setLit_assign]; exact hσ
      · rintro ⟨σ, hσ⟩
        by_cases ht : litTrue σ l = true
        · left; exact ⟨σ, by rw [cnfTrue_assign hl0 ht]; exact hσ⟩
        · right
          have : litTrue σ (-l) = true := by
            rw [litTrue_neg hl0]; simpa using ht
          exact ⟨σ, by rw [cnfTrue_assign hnl0 this]; exact hσ⟩

theorem solve_correct (f : Cnf) (h : WF f) : solve f = true ↔ ∃ σ, cnfTrue σ f = true :=
  dpll_correct _ f h (by unfold meas; omega)

end Dpll
#print axioms Dpll.solve_correct
